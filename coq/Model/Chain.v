(* Hand-written executable model of the bookkeeping of a Markov-chain run:
   MarginalisedMarkovChainMonteCarlo.iterate / _add / _add_new / _add_old / learning_check,
   the first-chain-sample rule, IterativeMetropolisHastingsGaussianTape.iterate (termination),
   acceptance_rate and the counters reported by output()
   (MTfit/algorithms/markov_chain_monte_carlo.py).
   A source state is an integer identifier with a double-couple flag; a log-likelihood is Some z
   or None (= -infinity).  The accept/reject decision of each proposal is an input. *)
From Coq Require Import ZArith List Bool Lia.
Import ListNotations.
Open Scope Z_scope.

Record src := mkSrc { s_id : Z; s_dc : bool; s_lnp : option Z }.

Record cst := mkC {
  learning_length : Z; window : Z; chain_length : Z;
  n_learn : Z;                 (* _number_learning_accepted *)
  win : list bool;             (* _learning_accepted *)
  tried : Z; accepted : Z;     (* _tried, _accepted *)
  cur : src;                   (* xi with ln_likelihood_xi *)
  chain : list src;            (* what pdf_sample holds, in order *)
  p_dc : Z;
  adapts : Z                   (* number of width adaptations performed *)
}.

Definition learning (s : cst) : bool := n_learn s <? learning_length s.

(* state right after initialise(): _tried = -1, _accepted = -1 *)
Definition init (ll w cl : Z) (x0 : src) : cst := mkC ll w cl 0 [] (-1) (-1) x0 [] 0 0.

(* _add: the new current state; recorded (and counted as tried) only outside the learning period.
   The sample store keeps an entry only when its log-likelihood is finite. *)
Definition add (s : cst) (x : src) : cst :=
  if learning s then mkC (learning_length s) (window s) (chain_length s) (n_learn s) (win s) (tried s) (accepted s) x (chain s) (p_dc s) (adapts s)
  else mkC (learning_length s) (window s) (chain_length s) (n_learn s) (win s) (tried s + 1) (accepted s) x
           (match s_lnp x with Some _ => chain s ++ [x] | None => chain s end)
           (if s_dc x then p_dc s + 1 else p_dc s) (adapts s).

Definition add_new (s : cst) (x : src) : cst :=
  let s1 := add s x in
  if learning s1
  then mkC (learning_length s1) (window s1) (chain_length s1) (n_learn s1 + 1) (win s1 ++ [true]) (tried s1) (accepted s1) (cur s1) (chain s1) (p_dc s1) (adapts s1)
  else mkC (learning_length s1) (window s1) (chain_length s1) (n_learn s1) (win s1) (tried s1) (accepted s1 + 1) (cur s1) (chain s1) (p_dc s1) (adapts s1).

Definition add_old (s : cst) : cst :=
  let s1 := add s (cur s) in
  if learning s1
  then mkC (learning_length s1) (window s1) (chain_length s1) (n_learn s1) (win s1 ++ [false]) (tried s1) (accepted s1) (cur s1) (chain s1) (p_dc s1) (adapts s1)
  else s1.

Definition set_win (s : cst) (w : list bool) (da : Z) : cst :=
  mkC (learning_length s) (window s) (chain_length s) (n_learn s) w (tried s) (accepted s) (cur s) (chain s) (p_dc s) (adapts s + da).

Definition lastn {A} (n : nat) (l : list A) : list A := skipn (length l - n) l.

(* one call of iterate with a non-empty forward result: proposal x, accepted or not, in the three
   stages of the code: acceptance bookkeeping; learning-window update; first chain sample *)
Definition stage1 (s : cst) (x : src) (accept : bool) : cst := if accept then add_new s x else add_old s.
Definition stage2 (s1 : cst) : cst :=
  if learning s1 && (window s1 <=? Z.of_nat (length (win s1))) then set_win s1 [] 1 else s1.
Definition stage3 (s2 : cst) : cst :=
  if learning s2 then s2
  else if tried s2 =? 0 then
         let tail := lastn (Z.to_nat (window s2)) (win s2) in
         let s2' := if 3 * window s2 <? 4 * Z.of_nat (length tail) then set_win s2 tail 1 else s2 in
         add_new s2' (cur s2')
       else s2.
Definition iterate (s : cst) (x : src) (accept : bool) : cst * bool :=
  let s3 := stage3 (stage2 (stage1 s x accept)) in (s3, chain_length s3 <=? tried s3).

(* a run: proposals are consumed until the end flag is raised *)
Fixpoint run (s : cst) (ops : list (src * bool)) : cst * bool :=
  match ops with
  | [] => (s, false)
  | (x, a) :: r => let '(s1, e) := iterate s x a in if e then (s1, true) else run s1 r
  end.

(* acceptance_rate() *)
Definition count_true (l : list bool) : Z := Z.of_nat (length (filter (fun b => b) l)).
Definition rate_num_den (s : cst) : Z * Z :=
  if learning s || (tried s =? 0) then (count_true (win s), Z.of_nat (length (win s))) else (accepted s, tried s).

(* observable summary compared with the implementation *)
Definition src_eqb (a b : src) : bool :=
  (s_id a =? s_id b) && Bool.eqb (s_dc a) (s_dc b) &&
  match s_lnp a, s_lnp b with Some x, Some y => x =? y | None, None => true | _, _ => false end.
Fixpoint srcs_eqb (a b : list src) : bool :=
  match a, b with [] , [] => true | x :: a', y :: b' => src_eqb x y && srcs_eqb a' b' | _, _ => false end.

Definition check_chain (ll w cl : Z) (x0 : src) (ops : list (src * bool))
           (e_end : bool) (e_tried e_accepted e_nlearn e_winlen e_pdc e_adapts : Z) (e_cur : src) (e_chain : list src) : bool :=
  let '(s, e) := run (init ll w cl x0) ops in
  Bool.eqb e e_end && (tried s =? e_tried) && (accepted s =? e_accepted) && (n_learn s =? e_nlearn) &&
  (Z.of_nat (length (win s)) =? e_winlen) && (p_dc s =? e_pdc) && (adapts s =? e_adapts) &&
  src_eqb (cur s) e_cur && srcs_eqb (chain s) e_chain.
