(* Hand-written model of the proposal-width adaptation of the learning period:
   MarginalisedMarkovChainMonteCarlo._get_acceptance_rate_modifier + _modify_alpha
   (MTfit/algorithms/markov_chain_monte_carlo.py).
   Written once over abstract arithmetic (mul, div, sqrt, comparisons); proved at the reals,
   executed bit-exactly at binary64 (PrimFloat) in the correspondence run. *)
From Coq Require Import List Bool.
Import ListNotations.

Section Adapt.
Context {T : Type}.
Variables (mul div : T -> T -> T) (sqrtT : T -> T) (ltb : T -> T -> bool) (is0 : T -> bool) (one tenth : T).

Record cfg := mkCfg { minr : T; maxr : T; maxa : list T }.
Record st := mkSt { alpha : list T; old_rate : T; old_ratio : option T; old_alpha : option (list T) }.

Definition tmax (a b : T) : T := if ltb a b then b else a.

(* _modify_alpha: multiply, unless that would exceed the maximum of the key *)
Fixpoint modify (a maxs : list T) (ratio : T) : list T :=
  match a, maxs with
  | x :: a', m :: ms => (let n := mul x ratio in if ltb m n then x else n) :: modify a' ms ratio
  | _, _ => a
  end.

(* "revert to old alpha and change ratio" with the two different ratio updates; [fallback] is used
   when no earlier window exists *)
Definition revert (s : st) (upd : T -> T) (fallback : T) : st * T :=
  match old_alpha s with
  | Some a =>
      match old_ratio s with
      | Some r => let ratio := upd r in (mkSt a (old_rate s) (Some ratio) (old_alpha s), ratio)
      | None => (mkSt a (old_rate s) (Some fallback) (old_alpha s), fallback)
      end
  | None => (mkSt (alpha s) (old_rate s) (Some fallback) (old_alpha s), fallback)
  end.

Definition step (c : cfg) (s : st) (rate : T) : st :=
  let up := fun s' => revert s' sqrtT (div one (maxr c)) in
  let down := fun s' => revert s' (fun r => mul r r) tenth in
  let '(s1, ratio) :=
    if is0 rate then down s
    else if ltb rate one then
      (* 0 < rate < 1 *)
      let '(r, ratio0) :=
        if ltb rate (minr c) then
          let r := if (ltb (old_rate s) (minr c) && ltb rate (old_rate s)) || ltb (maxr c) (old_rate s) then one else rate in
          (r, div r (minr c))
        else if ltb (maxr c) rate then
          let r := if (ltb (maxr c) (old_rate s) && ltb (old_rate s) rate) || ltb (old_rate s) (minr c) then one else rate in
          (r, div r (maxr c))
        else (rate, one) in
      let ratio1 := tmax ratio0 tenth in
      if ltb r one then (mkSt (alpha s) r (Some ratio1) (Some (alpha s)), ratio1)
      else up s
    else up s in
  mkSt (modify (alpha s1) (maxa c) ratio) (old_rate s1) (old_ratio s1) (old_alpha s1).

Definition run (c : cfg) (s : st) (rates : list T) : st := fold_left (step c) rates s.
End Adapt.

(* ---- binary64 execution ----------------------------------------------------------------------- *)
From Coq Require Import PrimFloat.

Definition fstep := @step float PrimFloat.mul PrimFloat.div PrimFloat.sqrt PrimFloat.ltb (fun x => PrimFloat.eqb x 0%float) 1%float 0x1.999999999999ap-4%float.
Definition frun (c : cfg) (s : st) (rates : list float) : st := fold_left (fstep c) rates s.

Fixpoint feq_list (a b : list float) : bool :=
  match a, b with
  | [], [] => true
  | x :: a', y :: b' => PrimFloat.eqb x y && feq_list a' b'
  | _, _ => false
  end.

Definition check_adapt (minr maxr : float) (maxa alpha0 : list float) (old_rate0 : float) (rates expected : list float) : bool :=
  feq_list (alpha (frun (mkCfg minr maxr maxa) (mkSt alpha0 old_rate0 None None) rates)) expected.
