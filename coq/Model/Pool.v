(* Hand-written model of MTfit/utilities/multiprocessing_helper.py (JobPool with multi-life workers).
   Two views: (1) an interleaving state machine (submit / a worker starts a task / a worker finishes / the parent pops
   a result), over which exactly-once delivery is an invariant of every schedule; (2) the parent's collection functions
   result() / all_results() as functions of the order in which results arrive (any order a schedule can produce). *)
From Coq Require Import ZArith List Bool Lia.
Import ListNotations.
Open Scope Z_scope.

(* what a task produces: a value, one of the reserved status codes, or an exception (delivered as the result) *)
Inductive outcome := Val (v : Z) | Code (c : Z) | Exc (e : Z).
Definition is_code (o : outcome) : bool := match o with Code _ => true | _ => false end.

(* ---- (2) collection as a function of the arrival order *)
(* result(): pops results, skipping status codes while other jobs are outstanding; None = blocks for ever,
   Some (None, ...) = returns None because only status codes were left *)
Fixpoint result_fn (arr : list outcome) (nj : Z) : option (option outcome * list outcome * Z) :=
  match arr with
  | [] => None
  | r :: arr' =>
      let nj' := nj - 1 in
      if is_code r then (if nj' <=? 0 then Some (None, arr', nj') else result_fn arr' nj')
      else Some (Some r, arr', nj')
  end.

(* the code before the repair: a status code is always followed by another blocking get *)
Fixpoint result_old (arr : list outcome) (nj : Z) : option (option outcome * list outcome * Z) :=
  match arr with
  | [] => None
  | r :: arr' =>
      let nj' := nj - 1 in
      if is_code r then result_old arr' nj' else Some (Some r, arr', nj')
  end.

Inductive collected := Done (l : list outcome) | Blocked (l : list outcome).

(* all_results(): while number_jobs: append result() (None results are dropped); fuel = number of arrivals + 1 *)
Fixpoint all_results_fn (res : list outcome -> Z -> option (option outcome * list outcome * Z))
         (fuel : nat) (arr : list outcome) (nj : Z) (acc : list outcome) : collected :=
  if nj =? 0 then Done acc else
  match fuel with
  | O => Blocked acc
  | S fuel' =>
      match res arr nj with
      | None => Blocked acc
      | Some (Some r, arr', nj') => all_results_fn res fuel' arr' nj' (acc ++ [r])
      | Some (None, arr', nj') => all_results_fn res fuel' arr' nj' acc
      end
  end.
Definition all_results (arr : list outcome) : collected :=
  all_results_fn result_fn (S (length arr)) arr (Z.of_nat (length arr)) [].
Definition all_results_old (arr : list outcome) : collected :=
  all_results_fn result_old (S (length arr)) arr (Z.of_nat (length arr)) [].

(* ---- (1) interleaving state machine *)
Record pool := mkPool { queue : list outcome; running : list outcome; results : list outcome; jobs : Z;
                        delivered : list outcome; skipped : list outcome; submitted : list outcome }.
Definition empty_pool := mkPool [] [] [] 0 [] [] [].

Inductive op := Submit (o : outcome) | Start | Finish (k : nat) | Pop.

Fixpoint remove_nth {A} (k : nat) (l : list A) : list A :=
  match k, l with
  | O, _ :: l' => l'
  | S k', x :: l' => x :: remove_nth k' l'
  | _, [] => []
  end.

Definition step (s : pool) (o : op) : pool :=
  match o with
  | Submit t => mkPool (queue s ++ [t]) (running s) (results s) (jobs s + 1) (delivered s) (skipped s) (submitted s ++ [t])
  | Start => match queue s with
             | t :: q => mkPool q (running s ++ [t]) (results s) (jobs s) (delivered s) (skipped s) (submitted s)
             | [] => s
             end
  | Finish k => match nth_error (running s) k with
                | Some t => mkPool (queue s) (remove_nth k (running s)) (results s ++ [t]) (jobs s) (delivered s) (skipped s) (submitted s)
                | None => s
                end
  | Pop => match results s with
           | r :: rs => if is_code r
                        then mkPool (queue s) (running s) rs (jobs s - 1) (delivered s) (skipped s ++ [r]) (submitted s)
                        else mkPool (queue s) (running s) rs (jobs s - 1) (delivered s ++ [r]) (skipped s) (submitted s)
           | [] => s
           end
  end.
Definition run (ops : list op) : pool := fold_left step ops empty_pool.

(* ---- executable checks for the correspondence run *)
Definition o_eqb (a b : outcome) : bool :=
  match a, b with
  | Val x, Val y => x =? y | Code x, Code y => x =? y | Exc x, Exc y => x =? y | _, _ => false
  end.
Fixpoint os_eqb (a b : list outcome) : bool :=
  match a, b with
  | x :: a', y :: b' => o_eqb x y && os_eqb a' b'
  | [], [] => true
  | _, _ => false
  end.
(* the implementation, given the observed arrival order, must deliver exactly what the model delivers *)
Definition check_all (arr expected : list outcome) : bool :=
  match all_results arr with Done l => os_eqb l expected | Blocked _ => false end.
