(* Code-independent linear algebra used by several proofs. *)
From Coq Require Import Reals Lra.
Open Scope R_scope.

(* ---- the tensor L diag(E) L^t of an orthonormal triad *)
Section Rebuild.
  Variables t0 t1 t2 b0 b1 b2 p0 p1 p2 e0 e1 e2 : R.
  Hypothesis Ht : t0 * t0 + t1 * t1 + t2 * t2 = 1.
  Hypothesis Hb : b0 * b0 + b1 * b1 + b2 * b2 = 1.
  Hypothesis Hp : p0 * p0 + p1 * p1 + p2 * p2 = 1.
  Hypothesis Htb : t0 * b0 + t1 * b1 + t2 * b2 = 0.
  Hypothesis Htp : t0 * p0 + t1 * p1 + t2 * p2 = 0.
  Hypothesis Hbp : b0 * p0 + b1 * p1 + b2 * p2 = 0.

  Definition reb (i0 i1 i2 j0 j1 j2 : R -> R -> R -> R) : R :=
    e0 * (i0 t0 t1 t2) * (j0 t0 t1 t2) + e1 * (i0 b0 b1 b2) * (j0 b0 b1 b2) + e2 * (i0 p0 p1 p2) * (j0 p0 p1 p2).

  Let m (x y : R * R * R) : R :=
    let '(tx, bx, px) := x in let '(ty, by_, py) := y in e0 * tx * ty + e1 * bx * by_ + e2 * px * py.
  Let r0 := (t0, b0, p0). Let r1 := (t1, b1, p1). Let r2 := (t2, b2, p2).

  (* Frobenius norm of the rebuilt tensor = norm of the eigenvalues *)
  Lemma rebuilt_frobenius :
    m r0 r0 * m r0 r0 + m r1 r1 * m r1 r1 + m r2 r2 * m r2 r2 +
    2 * (m r0 r1 * m r0 r1) + 2 * (m r0 r2 * m r0 r2) + 2 * (m r1 r2 * m r1 r2) = e0 * e0 + e1 * e1 + e2 * e2.
  Proof.
    unfold m, r0, r1, r2.
    (* tr (L D L^t L D L^t) = sum_kl e_k e_l (L^t L)_kl^2, a ring identity; then L^t L = I *)
    transitivity (e0 * e0 * ((t0 * t0 + t1 * t1 + t2 * t2) * (t0 * t0 + t1 * t1 + t2 * t2))
                  + e1 * e1 * ((b0 * b0 + b1 * b1 + b2 * b2) * (b0 * b0 + b1 * b1 + b2 * b2))
                  + e2 * e2 * ((p0 * p0 + p1 * p1 + p2 * p2) * (p0 * p0 + p1 * p1 + p2 * p2))
                  + 2 * e0 * e1 * ((t0 * b0 + t1 * b1 + t2 * b2) * (t0 * b0 + t1 * b1 + t2 * b2))
                  + 2 * e0 * e2 * ((t0 * p0 + t1 * p1 + t2 * p2) * (t0 * p0 + t1 * p1 + t2 * p2))
                  + 2 * e1 * e2 * ((b0 * p0 + b1 * p1 + b2 * p2) * (b0 * p0 + b1 * p1 + b2 * p2))); [ring|].
    rewrite Ht, Hb, Hp, Htb, Htp, Hbp. ring.
  Qed.
End Rebuild.
