(* Sums and maxima of lists of reals (targets of the translator's np.sum / np.max). *)
From Coq Require Import Reals List Lra.
Import ListNotations.
Open Scope R_scope.

Fixpoint Rlist_sum (l : list R) : R :=
  match l with [] => 0 | x :: r => x + Rlist_sum r end.

Fixpoint Rlist_max1 (x : R) (l : list R) : R :=
  match l with [] => x | y :: r => Rmax x (Rlist_max1 y r) end.
Definition Rlist_max (l : list R) : R :=
  match l with [] => 0 | x :: r => Rlist_max1 x r end.

Lemma Rlist_sum_app a b : Rlist_sum (a ++ b) = Rlist_sum a + Rlist_sum b.
Proof. induction a as [|x a IH]; simpl; [lra|rewrite IH; lra]. Qed.

Lemma Rlist_sum_map_mult_r (A : Type) (f : A -> R) c l :
  Rlist_sum (map (fun x => f x * c) l) = Rlist_sum (map f l) * c.
Proof. induction l as [|x l IH]; simpl; [lra|rewrite IH; lra]. Qed.

Lemma Rlist_sum_map_ext (A : Type) (f g : A -> R) l :
  (forall x, In x l -> f x = g x) -> Rlist_sum (map f l) = Rlist_sum (map g l).
Proof.
  induction l as [|x l IH]; intros H; simpl; [reflexivity|].
  rewrite (H x) by (left; reflexivity). rewrite IH; [reflexivity|]. intros y Hy. apply H. right. exact Hy.
Qed.

Lemma Rlist_sum_pos (A : Type) (f : A -> R) l :
  l <> [] -> (forall x, In x l -> 0 < f x) -> 0 < Rlist_sum (map f l).
Proof.
  induction l as [|x l IH]; intros Hne H; [contradiction|]. simpl.
  assert (0 < f x) by (apply H; left; reflexivity).
  destruct l as [|y l]; [simpl; lra|].
  assert (0 < Rlist_sum (map f (y :: l))).
  { apply IH; [discriminate|]. intros z Hz. apply H. right. exact Hz. }
  lra.
Qed.

Lemma Rlist_sum_le_len (A : Type) (f : A -> R) l b :
  (forall x, In x l -> f x <= b) -> Rlist_sum (map f l) <= INR (length l) * b.
Proof.
  induction l as [|x l IH]; intros H.
  - simpl. lra.
  - change (length (x :: l)) with (S (length l)). rewrite S_INR. simpl.
    assert (f x <= b) by (apply H; left; reflexivity).
    assert (Rlist_sum (map f l) <= INR (length l) * b) by (apply IH; intros y Hy; apply H; right; exact Hy).
    lra.
Qed.

Lemma Rlist_sum_ge_member (A : Type) (f : A -> R) l a :
  (forall x, In x l -> 0 <= f x) -> In a l -> f a <= Rlist_sum (map f l).
Proof.
  induction l as [|x l IH]; intros Hpos Hin; [contradiction|]. simpl.
  assert (0 <= f x) by (apply Hpos; left; reflexivity).
  assert (Hr : 0 <= Rlist_sum (map f l)).
  { clear IH Hin. induction l as [|y l IHl]; simpl; [lra|].
    assert (0 <= f y) by (apply Hpos; right; left; reflexivity).
    assert (0 <= Rlist_sum (map f l)).
    { apply IHl. intros z Hz. apply Hpos. destruct Hz as [->|Hz]; [left; reflexivity|right; right; exact Hz]. }
    lra. }
  destruct Hin as [->|Hin]; [lra|].
  assert (f a <= Rlist_sum (map f l)) by (apply IH; [intros z Hz; apply Hpos; right; exact Hz|exact Hin]).
  lra.
Qed.

Lemma Rlist_max1_ge x l y : In y (x :: l) -> y <= Rlist_max1 x l.
Proof.
  revert x. induction l as [|z l IH]; intros x H; simpl.
  - destruct H as [->|[]]. lra.
  - destruct H as [->|H].
    + apply Rmax_l.
    + eapply Rle_trans; [apply IH; exact H|apply Rmax_r].
Qed.

Lemma Rlist_max1_In x l : In (Rlist_max1 x l) (x :: l).
Proof.
  revert x. induction l as [|z l IH]; intros x; simpl.
  - left. reflexivity.
  - unfold Rmax. destruct (Rle_dec x (Rlist_max1 z l)).
    + right. apply IH.
    + left. reflexivity.
Qed.

Lemma Rlist_max_ge l y : In y l -> y <= Rlist_max l.
Proof. destruct l as [|x l]; [contradiction|]. apply Rlist_max1_ge. Qed.

Lemma Rlist_max_In l : l <> [] -> In (Rlist_max l) l.
Proof. destruct l as [|x l]; [contradiction|]. intros _. apply Rlist_max1_In. Qed.

Lemma Rlist_max1_plus c x l :
  Rlist_max1 (x + c) (map (fun y => y + c) l) = Rlist_max1 x l + c.
Proof.
  revert x. induction l as [|z l IH]; intros x; simpl; [reflexivity|].
  rewrite IH. unfold Rmax. destruct (Rle_dec (x + c) (Rlist_max1 z l + c)), (Rle_dec x (Rlist_max1 z l)); lra.
Qed.

Lemma Rlist_max_plus c l : l <> [] -> Rlist_max (map (fun y => y + c) l) = Rlist_max l + c.
Proof. destruct l as [|x l]; [contradiction|]. intros _. simpl. apply Rlist_max1_plus. Qed.
