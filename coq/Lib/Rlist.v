(* Sums and maxima of lists of reals (targets of the translator's np.sum / np.max). *)
From Coq Require Import Reals List Lra.
Import ListNotations.
Open Scope R_scope.

Fixpoint Rlist_sum (l : list R) : R :=
  match l with [] => 0 | x :: r => x + Rlist_sum r end.

Fixpoint Rlist_max1 (x : R) (l : list R) : R :=
  match l with [] => x | y :: r => Rmax x (Rlist_max1 y r) end.
Definition Rlist_max (l : list R) : R :=
  match l with [] => 0 | x :: r => Rlist_max1 x r end.

Lemma Rlist_sum_app a b : Rlist_sum (a ++ b) = Rlist_sum a + Rlist_sum b.
Proof. induction a as [|x a IH]; simpl; [lra|rewrite IH; lra]. Qed.

Lemma Rlist_sum_map_mult_r (A : Type) (f : A -> R) c l :
  Rlist_sum (map (fun x => f x * c) l) = Rlist_sum (map f l) * c.
Proof. induction l as [|x l IH]; simpl; [lra|rewrite IH; lra]. Qed.

Lemma Rlist_sum_map_ext (A : Type) (f g : A -> R) l :
  (forall x, In x l -> f x = g x) -> Rlist_sum (map f l) = Rlist_sum (map g l).
Proof.
  induction l as [|x l IH]; intros H; simpl; [reflexivity|].
  rewrite (H x) by (left; reflexivity). rewrite IH; [reflexivity|]. intros y Hy. apply H. right. exact Hy.
Qed.

Lemma Rlist_sum_pos (A : Type) (f : A -> R) l :
  l <> [] -> (forall x, In x l -> 0 < f x) -> 0 < Rlist_sum (map f l).
Proof.
  induction l as [|x l IH]; intros Hne H; [contradiction|]. simpl.
  assert (0 < f x) by (apply H; left; reflexivity).
  destruct l as [|y l]; [simpl; lra|].
  assert (0 < Rlist_sum (map f (y :: l))).
  { apply IH; [discriminate|]. intros z Hz. apply H. right. exact Hz. }
  lra.
Qed.

Lemma Rlist_sum_le_len (A : Type) (f : A -> R) l b :
  (forall x, In x l -> f x <= b) -> Rlist_sum (map f l) <= INR (length l) * b.
Proof.
  induction l as [|x l IH]; intros H.
  - simpl. lra.
  - change (length (x :: l)) with (S (length l)). rewrite S_INR. simpl.
    assert (f x <= b) by (apply H; left; reflexivity).
    assert (Rlist_sum (map f l) <= INR (length l) * b) by (apply IH; intros y Hy; apply H; right; exact Hy).
    lra.
Qed.

Lemma Rlist_sum_ge_member (A : Type) (f : A -> R) l a :
  (forall x, In x l -> 0 <= f x) -> In a l -> f a <= Rlist_sum (map f l).
Proof.
  induction l as [|x l IH]; intros Hpos Hin; [contradiction|]. simpl.
  assert (0 <= f x) by (apply Hpos; left; reflexivity).
  assert (Hr : 0 <= Rlist_sum (map f l)).
  { clear IH Hin. induction l as [|y l IHl]; simpl; [lra|].
    assert (0 <= f y) by (apply Hpos; right; left; reflexivity).
    assert (0 <= Rlist_sum (map f l)).
    { apply IHl. intros z Hz. apply Hpos. destruct Hz as [->|Hz]; [left; reflexivity|right; right; exact Hz]. }
    lra. }
  destruct Hin as [->|Hin]; [lra|].
  assert (f a <= Rlist_sum (map f l)) by (apply IH; [intros z Hz; apply Hpos; right; exact Hz|exact Hin]).
  lra.
Qed.

Lemma Rlist_max1_ge x l y : In y (x :: l) -> y <= Rlist_max1 x l.
Proof.
  revert x. induction l as [|z l IH]; intros x H; simpl.
  - destruct H as [->|[]]. lra.
  - destruct H as [->|H].
    + apply Rmax_l.
    + eapply Rle_trans; [apply IH; exact H|apply Rmax_r].
Qed.

Lemma Rlist_max1_In x l : In (Rlist_max1 x l) (x :: l).
Proof.
  revert x. induction l as [|z l IH]; intros x; simpl.
  - left. reflexivity.
  - unfold Rmax. destruct (Rle_dec x (Rlist_max1 z l)).
    + right. apply IH.
    + left. reflexivity.
Qed.

Lemma Rlist_max_ge l y : In y l -> y <= Rlist_max l.
Proof. destruct l as [|x l]; [contradiction|]. apply Rlist_max1_ge. Qed.

Lemma Rlist_max_In l : l <> [] -> In (Rlist_max l) l.
Proof. destruct l as [|x l]; [contradiction|]. intros _. apply Rlist_max1_In. Qed.

Lemma Rlist_max1_plus c x l :
  Rlist_max1 (x + c) (map (fun y => y + c) l) = Rlist_max1 x l + c.
Proof.
  revert x. induction l as [|z l IH]; intros x; simpl; [reflexivity|].
  rewrite IH. unfold Rmax. destruct (Rle_dec (x + c) (Rlist_max1 z l + c)), (Rle_dec x (Rlist_max1 z l)); lra.
Qed.

Lemma Rlist_max_plus c l : l <> [] -> Rlist_max (map (fun y => y + c) l) = Rlist_max l + c.
Proof. destruct l as [|x l]; [contradiction|]. intros _. simpl. apply Rlist_max1_plus. Qed.

(* sum of exponentials *)
Definition sumexp (xs : list R) : R := Rlist_sum (map exp xs).

Lemma sumexp_pos xs : xs <> [] -> 0 < sumexp xs.
Proof. intros H. apply Rlist_sum_pos; [exact H|]. intros x _. apply exp_pos. Qed.

Lemma shifted_sum xs s dV :
  Rlist_sum (map (fun x => exp (x + s) * dV) xs) = exp s * dV * sumexp xs.
Proof.
  unfold sumexp. induction xs as [|x xs IH]; simpl; [ring|].
  rewrite IH, exp_plus. ring.
Qed.

Lemma sumexp_shift xs c : sumexp (map (fun x => x + c) xs) = exp c * sumexp xs.
Proof.
  unfold sumexp. induction xs as [|x xs IH]; simpl; [ring|]. rewrite IH, exp_plus. ring.
Qed.


(* linearity and monotonicity of mapped sums *)
Lemma Rlist_sum_map_plus (A : Type) (f g : A -> R) l :
  Rlist_sum (map (fun x => f x + g x) l) = Rlist_sum (map f l) + Rlist_sum (map g l).
Proof. induction l as [|x l IH]; simpl; [lra|rewrite IH; lra]. Qed.

Lemma Rlist_sum_map_scal (A : Type) (f : A -> R) c l :
  Rlist_sum (map (fun x => c * f x) l) = c * Rlist_sum (map f l).
Proof. induction l as [|x l IH]; simpl; [lra|rewrite IH; lra]. Qed.

Lemma Rlist_sum_map_const (A : Type) c (l : list A) :
  Rlist_sum (map (fun _ => c) l) = INR (length l) * c.
Proof.
  induction l as [|x l IH]; [simpl; lra|]. change (length (x :: l)) with (S (length l)).
  rewrite S_INR. simpl. rewrite IH. lra.
Qed.

Lemma Rlist_sum_map_le (A : Type) (f g : A -> R) l :
  (forall x, In x l -> f x <= g x) -> Rlist_sum (map f l) <= Rlist_sum (map g l).
Proof.
  induction l as [|x l IH]; intros H; simpl; [lra|].
  assert (f x <= g x) by (apply H; left; reflexivity).
  assert (Rlist_sum (map f l) <= Rlist_sum (map g l)) by (apply IH; intros y Hy; apply H; right; exact Hy).
  lra.
Qed.

Lemma Rlist_sum_map_id l : Rlist_sum (map (fun x : R => x) l) = Rlist_sum l.
Proof. rewrite map_id. reflexivity. Qed.

(* ln x <= x - 1 *)
Lemma ln_le_sub1 x : 0 < x -> ln x <= x - 1.
Proof.
  intros Hx. destruct (Req_dec (ln x) 0) as [E|E].
  - rewrite E. assert (x = 1). { rewrite <- (exp_ln x Hx), E. apply exp_0. } lra.
  - pose proof (exp_ineq1 (ln x) E) as H. rewrite exp_ln in H by exact Hx. lra.
Qed.

(* entropy bound (Gibbs against the uniform distribution): for positive weights summing to one,
   sum w ln w >= - ln (number of weights) *)
Lemma gibbs_uniform ws : ws <> [] -> (forall w, In w ws -> 0 < w) -> Rlist_sum ws = 1 ->
  - ln (INR (length ws)) <= Rlist_sum (map (fun w => w * ln w) ws).
Proof.
  intros Hne Hpos Hsum.
  set (k := INR (length ws)).
  assert (Hk : 0 < k).
  { subst k. destruct ws; [contradiction|]. apply lt_0_INR. simpl. apply Nat.lt_0_succ. }
  assert (H : Rlist_sum (map (fun w => - (w * ln k) - (/ k - w)) ws) <= Rlist_sum (map (fun w => w * ln w) ws)).
  { apply Rlist_sum_map_le. intros w Hw. specialize (Hpos w Hw).
    assert (Hkw : 0 < / (k * w)) by (apply Rinv_0_lt_compat, Rmult_lt_0_compat; assumption).
    pose proof (ln_le_sub1 (/ (k * w)) Hkw) as Hl.
    rewrite ln_Rinv in Hl by (apply Rmult_lt_0_compat; assumption).
    rewrite ln_mult in Hl by assumption.
    assert (E : w * / (k * w) = / k) by (field; lra).
    assert (w * (- (ln k + ln w)) <= w * (/ (k * w) - 1)) by (apply Rmult_le_compat_l; lra).
    nra. }
  assert (E : Rlist_sum (map (fun w => - (w * ln k) - (/ k - w)) ws) = - ln k).
  { rewrite (Rlist_sum_map_ext R _ (fun w => (1 - ln k) * w + - / k)) by (intros; ring).
    rewrite Rlist_sum_map_plus, Rlist_sum_map_scal, Rlist_sum_map_id, Rlist_sum_map_const, Hsum.
    fold k. field. lra. }
  lra.
Qed.
