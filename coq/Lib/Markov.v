(* Detailed balance implies stationarity (finite state space). *)
From Coq Require Import Reals List Lra.
From MTV.Lib Require Import Rlist.
Import ListNotations.
Open Scope R_scope.

Section Markov.
Variable S : Type.
Variable states : list S.                 (* the finite state space, as a list *)
Variable pi : S -> R.                     (* target weights *)
Variable P : S -> S -> R.                 (* transition kernel: P i j = probability of moving from i to j *)
Hypothesis rows : forall i, In i states -> Rlist_sum (map (fun j => P i j) states) = 1.
Hypothesis balance : forall i j, In i states -> In j states -> pi i * P i j = pi j * P j i.

Theorem detailed_balance_stationary j : In j states ->
  Rlist_sum (map (fun i => pi i * P i j) states) = pi j.
Proof.
  intros Hj.
  rewrite (Rlist_sum_map_ext S (fun i => pi i * P i j) (fun i => pi j * P j i)).
  - transitivity (pi j * Rlist_sum (map (fun i => P j i) states)).
    + exact (Rlist_sum_map_scal S (fun i => P j i) (pi j) states).
    + rewrite (rows j Hj). lra.
  - intros i Hi. apply balance; assumption.
Qed.
End Markov.
