(* Redraw-until-accepted loops over an arbitrary stream of standard draws. *)
From Coq Require Import Reals List Lra.
Import ListNotations.
Open Scope R_scope.

Section Redraw.
Variable P Q : R -> Prop.                     (* P: rejection condition (the loop guard); Q: what its failure gives *)
Variable rej : forall v, {P v} + {Q v}.
Variable draw : R -> R.                       (* candidate as a function of one standard draw *)

(* first candidate from the first element of the stream, redrawn while rejected; None = the stream
   ran out (the loop would still be running) *)
Fixpoint redraw (cand : R) (zs : list R) : option R :=
  if rej cand then match zs with [] => None | z :: r => redraw (draw z) r end else Some cand.

Definition propose (zs : list R) : option R :=
  match zs with [] => None | z :: r => redraw (draw z) r end.

Lemma redraw_accepted cand zs v : redraw cand zs = Some v -> Q v.
Proof.
  revert cand. induction zs as [|z r IH]; intros cand; simpl.
  - destruct (rej cand) as [H|H]; [discriminate|]. intros E. inversion E. subst. exact H.
  - destruct (rej cand) as [H|H]; [apply IH|]. intros E. inversion E. subst. exact H.
Qed.

Lemma propose_accepted zs v : propose zs = Some v -> Q v.
Proof. destruct zs as [|z r]; [discriminate|]. apply redraw_accepted. Qed.

(* the value returned is the candidate of the FIRST draw of the stream that is not rejected *)
Lemma propose_first_accepted zs v : propose zs = Some v ->
  exists pre z post, zs = pre ++ z :: post /\ v = draw z /\ (forall y, In y pre -> P (draw y)).
Proof.
  destruct zs as [|z0 r]; [discriminate|]. simpl.
  revert z0. induction r as [|z1 r IH]; intros z0; simpl.
  - destruct (rej (draw z0)) as [H|H]; [discriminate|]. intros E. inversion E.
    exists [], z0, []. repeat split. intros y [].
  - destruct (rej (draw z0)) as [H|H].
    + intros E. destruct (IH z1 E) as [pre [z [post [E1 [E2 E3]]]]].
      exists (z0 :: pre), z, post. split; [simpl; rewrite E1; reflexivity|]. split; [exact E2|].
      intros y [->|Hy]; [exact H|apply E3; exact Hy].
    + intros E. inversion E. exists [], z0, (z1 :: r). repeat split. intros y [].
Qed.

(* if some draw of the stream is acceptable, the loop terminates within the stream *)
Lemma propose_terminates zs : (exists z, In z zs /\ ~ P (draw z)) -> exists v, propose zs = Some v.
Proof.
  destruct zs as [|z0 r]; [intros [z [[] _]]|]. simpl.
  revert z0. induction r as [|z1 r IH]; intros z0 [z [Hin Hz]]; simpl.
  - destruct Hin as [->|[]]. destruct (rej (draw z)) as [H|H]; [contradiction|]. eexists; reflexivity.
  - destruct (rej (draw z0)) as [H|H]; [|eexists; reflexivity].
    apply IH. destruct Hin as [->|Hin]; [contradiction|]. exists z. split; assumption.
Qed.
End Redraw.

(* numpy.mod with a positive modulus lands in [0, m) *)
From MTV.Lib Require Import Base.
Lemma rmod_range x m : 0 < m -> 0 <= rmod x m < m.
Proof.
  intros Hm. unfold rmod, Rfloor.
  destruct (base_Int_part (x / m)) as [H1 H2].
  assert (E : x = m * (x / m)) by (field; lra).
  set (k := IZR (Int_part (x / m))) in *.
  split.
  - assert (m * k <= m * (x / m)) by (apply Rmult_le_compat_l; lra). lra.
  - assert (m * (x / m - 1) < m * k) by (apply Rmult_lt_compat_l; lra). lra.
Qed.
