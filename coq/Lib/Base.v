(* Code-independent definitions used by the generated files (Gen/*.v). *)
From Coq Require Import Reals Lra.
Open Scope R_scope.

(* numpy.sign *)
Definition sgn (x : R) : R :=
  if Rlt_dec 0 x then 1 else if Rlt_dec x 0 then -1 else 0.

Lemma sgn_pos x : 0 < x -> sgn x = 1.
Proof. intros H; unfold sgn; destruct (Rlt_dec 0 x); [reflexivity|contradiction]. Qed.
Lemma sgn_neg x : x < 0 -> sgn x = -1.
Proof.
  intros H; unfold sgn; destruct (Rlt_dec 0 x); [lra|].
  destruct (Rlt_dec x 0); [reflexivity|contradiction].
Qed.
Lemma sgn_0 : sgn 0 = 0.
Proof. unfold sgn; destruct (Rlt_dec 0 0); [lra|]. destruct (Rlt_dec 0 0); [lra|reflexivity]. Qed.
Lemma sgn_opp x : sgn (- x) = - sgn x.
Proof.
  destruct (Rtotal_order x 0) as [H|[H|H]].
  - rewrite (sgn_neg x H), sgn_pos; lra.
  - subst; rewrite Ropp_0, sgn_0; lra.
  - rewrite (sgn_pos x H), sgn_neg; lra.
Qed.

Definition Rneq_dec (a b : R) : {a <> b} + {~ a <> b}.
Proof. destruct (Req_EM_T a b) as [e|n]; [right; intros H; exact (H e) | left; exact n]. Defined.

(* numpy.arctan2 (y, x): defined from atan by quadrant; the mapping numpy -> this definition is
   trusted and validated by the correspondence run. *)
Definition atan2 (y x : R) : R :=
  if Rlt_dec 0 x then atan (y / x)
  else if Rlt_dec x 0 then (if Rle_dec 0 y then atan (y / x) + PI else atan (y / x) - PI)
  else if Rlt_dec 0 y then PI / 2
  else if Rlt_dec y 0 then - PI / 2
  else 0.

(* numpy.mod for a positive modulus: x - m * floor (x / m) *)
Definition Rfloor (x : R) : R := IZR (Int_part x).
Definition rmod (x m : R) : R := x - m * Rfloor (x / m).

(* C fmod: the remainder with the sign of the dividend (truncated quotient) *)
Definition Rtrunc (x : R) : R := if Rle_dec 0 x then Rfloor x else - Rfloor (- x).
Definition Rfmod (x m : R) : R := x - m * Rtrunc (x / m).

Lemma sqrt2_sq : sqrt 2 * sqrt 2 = 2.
Proof. apply sqrt_sqrt; lra. Qed.
Lemma sqrt2_pos : 0 < sqrt 2.
Proof. apply sqrt_lt_R0; lra. Qed.
Lemma sqrt2_neq0 : sqrt 2 <> 0.
Proof. pose proof sqrt2_pos; lra. Qed.
