(* Source states of the Markov chain in the Tape parameterisation (the dictionaries
   {'gamma','delta','kappa','h','sigma'} of the code). *)
From Coq Require Import Reals.
Record state := mkState { s_gamma : R; s_delta : R; s_kappa : R; s_h : R; s_sigma : R }.
