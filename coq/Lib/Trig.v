(* Code-independent facts about atan2 (Lib/Base.v), acos and the numpy-style mod, used by the
   conversion proofs (C12, C13, C14, C19). *)
From Coq Require Import Reals Lra Lia.
From MTV.Lib Require Import Base.
Open Scope R_scope.

Lemma atan2_pos_x y x : 0 < x -> atan2 y x = atan (y / x).
Proof. intros H; unfold atan2; destruct (Rlt_dec 0 x); [reflexivity|contradiction]. Qed.

Lemma atan2_0_0 : atan2 0 0 = 0.
Proof.
  unfold atan2. destruct (Rlt_dec 0 0) as [H|_]; [lra|].
  destruct (Rlt_dec 0 0) as [H|_]; [lra|]. reflexivity.
Qed.

Lemma atan2_scale c y x : 0 < c -> atan2 (c * y) (c * x) = atan2 y x.
Proof.
  intros Hc. unfold atan2.
  assert (E : x <> 0 -> c * y / (c * x) = y / x) by (intros; field; split; lra).
  destruct (Rlt_dec 0 x) as [Hx|Hx].
  - destruct (Rlt_dec 0 (c * x)) as [_|N]; [rewrite E by lra; reflexivity | exfalso; apply N; nra].
  - destruct (Rlt_dec 0 (c * x)) as [P|_]; [exfalso; nra|].
    destruct (Rlt_dec x 0) as [Hx'|Hx'].
    + destruct (Rlt_dec (c * x) 0) as [_|N]; [|exfalso; apply N; nra].
      rewrite E by lra.
      destruct (Rle_dec 0 y) as [Hy|Hy]; destruct (Rle_dec 0 (c * y)) as [Hy'|Hy']; try reflexivity; exfalso; nra.
    + destruct (Rlt_dec (c * x) 0) as [P|_]; [exfalso; nra|].
      destruct (Rlt_dec 0 y) as [Hy|Hy]; destruct (Rlt_dec 0 (c * y)) as [Hy'|Hy']; try reflexivity; try (exfalso; nra).
      destruct (Rlt_dec y 0) as [Hz|Hz]; destruct (Rlt_dec (c * y) 0) as [Hz'|Hz']; try reflexivity; exfalso; nra.
Qed.

Lemma atan2_range y x : - PI <= atan2 y x <= PI.
Proof.
  unfold atan2. pose proof PI_RGT_0 as Hpi.
  destruct (Rlt_dec 0 x).
  - pose proof (atan_bound (y / x)); lra.
  - destruct (Rlt_dec x 0).
    + pose proof (atan_bound (y / x)) as B.
      destruct (Rle_dec 0 y) as [Hy|Hy].
      * assert (y / x <= 0) by (unfold Rdiv; assert (/ x < 0) by (apply Rinv_lt_0_compat; lra); nra).
        assert (atan (y / x) <= 0).
        { destruct (Req_dec (y / x) 0) as [E|E]; [rewrite E, atan_0; lra|].
          rewrite <- atan_0. left. apply atan_increasing. lra. }
        lra.
      * assert (0 < y / x) by (unfold Rdiv; assert (/ x < 0) by (apply Rinv_lt_0_compat; lra); nra).
        assert (0 < atan (y / x)) by (rewrite <- atan_0; apply atan_increasing; lra).
        lra.
    + destruct (Rlt_dec 0 y); [lra|]. destruct (Rlt_dec y 0); lra.
Qed.

(* the polar inverse: atan2 recovers the angle of any non-zero vector *)
Lemma atan2_polar rho th : 0 < rho -> - PI < th <= PI -> atan2 (rho * sin th) (rho * cos th) = th.
Proof.
  intros Hr [Hlo Hhi]. rewrite atan2_scale by exact Hr.
  pose proof PI_RGT_0 as Hpi.
  destruct (Rlt_dec th (- (PI / 2))) as [A|A].
  - (* third quadrant *)
    assert (Hc : cos th < 0).
    { rewrite <- cos_neg. apply cos_lt_0; lra. }
    assert (Hs : sin th < 0).
    { apply sin_lt_0_var; lra. }
    unfold atan2. destruct (Rlt_dec 0 (cos th)); [lra|]. destruct (Rlt_dec (cos th) 0); [|lra].
    destruct (Rle_dec 0 (sin th)); [lra|].
    replace (sin th / cos th) with (tan (th + PI)).
    + rewrite atan_tan; lra.
    + unfold tan. rewrite neg_sin, neg_cos. field. lra.
  - destruct (Req_dec th (- (PI / 2))) as [E|E].
    + subst th. rewrite cos_neg, sin_neg, cos_PI2, sin_PI2. unfold atan2.
      repeat (match goal with |- context [Rlt_dec ?a ?b] => destruct (Rlt_dec a b) end); lra.
    + destruct (Rlt_dec th (PI / 2)) as [B|B].
      * assert (Hc : 0 < cos th) by (apply cos_gt_0; lra).
        rewrite atan2_pos_x by exact Hc. change (sin th / cos th) with (tan th).
        apply atan_tan; lra.
      * destruct (Req_dec th (PI / 2)) as [E2|E2].
        -- subst th. rewrite cos_PI2, sin_PI2. unfold atan2.
           repeat (match goal with |- context [Rlt_dec ?a ?b] => destruct (Rlt_dec a b) end); lra.
        -- assert (Hc : cos th < 0) by (apply cos_lt_0; lra).
           assert (Hs : 0 <= sin th) by (apply sin_ge_0; lra).
           unfold atan2. destruct (Rlt_dec 0 (cos th)); [lra|]. destruct (Rlt_dec (cos th) 0); [|lra].
           destruct (Rle_dec 0 (sin th)); [|lra].
           replace (sin th / cos th) with (tan (th - PI)).
           ++ rewrite atan_tan; lra.
           ++ unfold tan. replace (th - PI) with (- (PI - th)) by ring.
              rewrite sin_neg, cos_neg.
              replace (PI - th) with (- th + PI) by ring. rewrite neg_sin, neg_cos, sin_neg, cos_neg.
              field. lra.
Qed.

Lemma atan_PI6 : atan (1 / sqrt 3) = PI / 6.
Proof. rewrite <- tan_PI6. apply atan_tan. pose proof PI_RGT_0; lra. Qed.

(* a vector within the cone |y| <= x / sqrt 3 has an angle within pi/6 *)
Lemma atan2_cone y x : 0 < x -> Rabs y * sqrt 3 <= x -> - (PI / 6) <= atan2 y x <= PI / 6.
Proof.
  intros Hx Hy. rewrite atan2_pos_x by exact Hx.
  assert (H3 : 0 < sqrt 3) by (apply sqrt_lt_R0; lra).
  assert (Hq : - (1 / sqrt 3) <= y / x <= 1 / sqrt 3).
  { assert (Hab : - Rabs y <= y <= Rabs y) by (unfold Rabs; destruct (Rcase_abs y); lra).
    split.
    - apply Rmult_le_reg_r with (x * sqrt 3); [nra|]. field_simplify; [|lra|lra]. nra.
    - apply Rmult_le_reg_r with (x * sqrt 3); [nra|]. field_simplify; [|lra|lra]. nra. }
  destruct Hq as [Q1 Q2]. rewrite <- atan_PI6. split.
  - rewrite <- atan_opp. destruct Q1 as [Q1|Q1]; [left; apply atan_increasing; exact Q1 | rewrite Q1; lra].
  - destruct Q2 as [Q2|Q2]; [left; apply atan_increasing; exact Q2 | rewrite Q2; lra].
Qed.

Lemma Rmax_scale c a b : 0 <= c -> Rmax (c * a) (c * b) = c * Rmax a b.
Proof. intros; apply RmaxRmult; assumption. Qed.
Lemma Rmin_scale c a b : 0 <= c -> Rmin (c * a) (c * b) = c * Rmin a b.
Proof.
  intros Hc. unfold Rmin. destruct (Rle_dec a b) as [H|H]; destruct (Rle_dec (c * a) (c * b)) as [H'|H']; try reflexivity.
  - exfalso; apply H'; nra.
  - assert (c * a = c * b) by nra. lra.
Qed.

Lemma sgn_scale c x : 0 < c -> sgn (c * x) = sgn x.
Proof.
  intros Hc. destruct (Rtotal_order x 0) as [H|[H|H]].
  - rewrite (sgn_neg x H), sgn_neg; [reflexivity|nra].
  - subst. rewrite Rmult_0_r. reflexivity.
  - rewrite (sgn_pos x H), sgn_pos; [reflexivity|nra].
Qed.

Lemma atan2_quadrant1 y x : 0 <= y -> 0 <= x -> 0 <= atan2 y x <= PI / 2.
Proof.
  intros Hy Hx. unfold atan2. pose proof PI_RGT_0.
  destruct (Rlt_dec 0 x) as [P|P].
  - pose proof (atan_bound (y / x)).
    assert (0 <= y / x) by (unfold Rdiv; apply Rmult_le_pos; [lra | left; apply Rinv_0_lt_compat; lra]).
    assert (0 <= atan (y / x)).
    { destruct (Req_dec (y / x) 0) as [E|E]; [rewrite E, atan_0; lra|].
      rewrite <- atan_0. left. apply atan_increasing. lra. }
    lra.
  - destruct (Rlt_dec x 0); [lra|]. destruct (Rlt_dec 0 y); [lra|]. destruct (Rlt_dec y 0); lra.
Qed.
