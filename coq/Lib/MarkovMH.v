(* The kernel a Metropolis-Hastings chain actually runs (propose, accept with probability a, otherwise stay) and the mixture of two
   such kernels (model jump with probability p, shift otherwise): detailed balance of the acceptance rule gives stationarity. *)
From Coq Require Import Reals List Lra.
From MTV.Lib Require Import Rlist Markov.
Import ListNotations.
Open Scope R_scope.

Section Mixture.
Variable S : Type.
Variable states : list S.
Variable pi : S -> R.
Variables P1 P2 : S -> S -> R.
Variable p : R.

Definition mix (i j : S) : R := p * P1 i j + (1 - p) * P2 i j.

Hypothesis rows1 : forall i, In i states -> Rlist_sum (map (fun j => P1 i j) states) = 1.
Hypothesis rows2 : forall i, In i states -> Rlist_sum (map (fun j => P2 i j) states) = 1.
Hypothesis bal1 : forall i j, In i states -> In j states -> pi i * P1 i j = pi j * P1 j i.
Hypothesis bal2 : forall i j, In i states -> In j states -> pi i * P2 i j = pi j * P2 j i.

Lemma mix_rows i : In i states -> Rlist_sum (map (fun j => mix i j) states) = 1.
Proof.
  intros Hi. unfold mix.
  rewrite (Rlist_sum_map_plus S (fun j => p * P1 i j) (fun j => (1 - p) * P2 i j)).
  rewrite (Rlist_sum_map_scal S (fun j => P1 i j) p), (Rlist_sum_map_scal S (fun j => P2 i j) (1 - p)).
  rewrite (rows1 i Hi), (rows2 i Hi). lra.
Qed.

Lemma mix_balance i j : In i states -> In j states -> pi i * mix i j = pi j * mix j i.
Proof.
  intros Hi Hj. unfold mix. pose proof (bal1 i j Hi Hj). pose proof (bal2 i j Hi Hj).
  transitivity (p * (pi i * P1 i j) + (1 - p) * (pi i * P2 i j)); [ring|].
  rewrite H, H0. ring.
Qed.

Theorem mix_stationary j : In j states -> Rlist_sum (map (fun i => pi i * mix i j) states) = pi j.
Proof. exact (detailed_balance_stationary S states pi mix mix_rows mix_balance j). Qed.
End Mixture.

Section Metropolis.
Variable S : Type.
Variable eq_dec : forall a b : S, {a = b} + {a <> b}.
Variable states : list S.
Hypothesis nodup : NoDup states.
Variable pi : S -> R.
Variable Q : S -> S -> R.          (* proposal probabilities *)
Variable a : S -> S -> R.          (* acceptance probabilities *)
Hypothesis Qrows : forall i, In i states -> Rlist_sum (map (fun j => Q i j) states) = 1.
Hypothesis acc_balance : forall i j, In i states -> In j states -> i <> j -> pi i * (Q i j * a i j) = pi j * (Q j i * a j i).

(* move to another state: proposed and accepted *)
Definition moved (i j : S) : R := if eq_dec i j then 0 else Q i j * a i j.
(* the chain kernel: everything that is not a move stays (rejections and proposals of the current state itself) *)
Definition MH (i j : S) : R := moved i j + (if eq_dec i j then 1 - Rlist_sum (map (fun k => moved i k) states) else 0).

Lemma indicator_sum (r : R) i l : NoDup l -> In i l -> Rlist_sum (map (fun j => if eq_dec i j then r else 0) l) = r.
Proof.
  induction l as [|x l IH]; intros Hn Hi; [destruct Hi|].
  inversion Hn as [|? ? Hx Hl]; subst. cbn [map Rlist_sum].
  destruct Hi as [<-|Hi].
  - destruct (eq_dec x x) as [_|C]; [|destruct (C eq_refl)].
    rewrite (Rlist_sum_map_ext S (fun j => if eq_dec x j then r else 0) (fun _ => 0)).
    + rewrite Rlist_sum_map_const. lra.
    + intros j Hj. destruct (eq_dec x j) as [->|_]; [destruct (Hx Hj)|reflexivity].
  - destruct (eq_dec i x) as [->|_]; [destruct (Hx Hi)|]. rewrite (IH Hl Hi). lra.
Qed.

Lemma MH_rows i : In i states -> Rlist_sum (map (fun j => MH i j) states) = 1.
Proof.
  intros Hi. unfold MH.
  rewrite (Rlist_sum_map_plus S (fun j => moved i j) (fun j => if eq_dec i j then 1 - Rlist_sum (map (fun k => moved i k) states) else 0)).
  rewrite (indicator_sum _ i states nodup Hi). lra.
Qed.

Lemma MH_balance i j : In i states -> In j states -> pi i * MH i j = pi j * MH j i.
Proof.
  intros Hi Hj. destruct (eq_dec i j) as [->|N]; [reflexivity|].
  unfold MH, moved. destruct (eq_dec i j) as [E|_]; [destruct (N E)|].
  destruct (eq_dec j i) as [E|_]; [destruct (N (eq_sym E))|].
  rewrite !Rplus_0_r. apply acc_balance; assumption.
Qed.

Theorem MH_stationary j : In j states -> Rlist_sum (map (fun i => pi i * MH i j) states) = pi j.
Proof. exact (detailed_balance_stationary S states pi MH MH_rows MH_balance j). Qed.

(* the kernel is a probability kernel when proposals and acceptances are probabilities *)
Hypothesis Qpos : forall i j, 0 <= Q i j.
Hypothesis a01 : forall i j, 0 <= a i j <= 1.

Lemma moved_le_Q i j : 0 <= moved i j <= Q i j.
Proof.
  unfold moved. destruct (eq_dec i j); [split; [lra|apply Qpos]|].
  pose proof (Qpos i j). pose proof (a01 i j). split; nra.
Qed.

Lemma MH_nonneg i j : In i states -> 0 <= MH i j.
Proof.
  intros Hi. unfold MH. pose proof (moved_le_Q i j) as [H0 _].
  destruct (eq_dec i j); [|lra].
  assert (Rlist_sum (map (fun k => moved i k) states) <= 1).
  { rewrite <- (Qrows i Hi). apply Rlist_sum_map_le. intros k _. apply moved_le_Q. }
  lra.
Qed.
End Metropolis.
